// iprscan -- LibTooling fact extractor for the ipr verification framework.
//
// Runs over one translation unit with the real flags and writes one JSON file
// holding, for declarations whose location is under the repository root:
//   records, functions (with structured bodies, every reference resolved by
//   Sema), globals, enums -- plus "construct" facts that link the standard
//   library's in-place construction helpers (std::construct_at<T,Args...>)
//   to the repository constructor Sema selected inside them.
//
// usage: iprscan --root=/repo --out=facts.json file.cxx -- <compiler flags>

#include "clang/AST/ASTConsumer.h"
#include "clang/AST/ASTContext.h"
#include "clang/AST/CXXInheritance.h"
#include "clang/AST/DeclCXX.h"
#include "clang/AST/DeclTemplate.h"
#include "clang/AST/ExprCXX.h"
#include "clang/AST/RecursiveASTVisitor.h"
#include "clang/AST/StmtCXX.h"
#include "clang/Basic/SourceManager.h"
#include "clang/Frontend/CompilerInstance.h"
#include "clang/Frontend/FrontendAction.h"
#include "clang/Tooling/CommonOptionsParser.h"
#include "clang/Tooling/Tooling.h"
#include "llvm/Support/CommandLine.h"
#include "llvm/Support/JSON.h"
#include "llvm/Support/raw_ostream.h"

#include <map>
#include <set>
#include <string>

using namespace clang;
namespace json = llvm::json;

static llvm::cl::OptionCategory Cat("iprscan options");
static llvm::cl::opt<std::string> RootOpt("root", llvm::cl::desc("repository root"),
                                           llvm::cl::init("/repo"), llvm::cl::cat(Cat));
static llvm::cl::opt<std::string> OutOpt("out", llvm::cl::desc("output json"),
                                          llvm::cl::Required, llvm::cl::cat(Cat));

namespace {

struct Scanner;

struct Ctx {
   ASTContext* AC = nullptr;
   SourceManager* SM = nullptr;
   PrintingPolicy PP{LangOptions()};
   std::string root;
   std::map<const CXXRecordDecl*, std::string> lambdaNames;   // closure type -> variable it initialises
   std::map<const Decl*, std::string> idCache;
   std::map<std::string, int> anonCounter;
};

static Ctx C;

std::string fileOf(SourceLocation L)
{
   if (L.isInvalid()) return "";
   SourceLocation E = C.SM->getExpansionLoc(L);
   return C.SM->getFilename(E).str();
}

bool inRepoLoc(SourceLocation L)
{
   std::string f = fileOf(L);
   if (f.empty()) return false;
   // normalise a possible "/repo/src/../include" spelling
   llvm::SmallString<256> p(f);
   llvm::sys::path::remove_dots(p, true);
   return llvm::StringRef(p).startswith(C.root + "/");
}

std::string locStr(SourceLocation L)
{
   if (L.isInvalid()) return "";
   SourceLocation E = C.SM->getExpansionLoc(L);
   llvm::SmallString<256> p(C.SM->getFilename(E));
   llvm::sys::path::remove_dots(p, true);
   std::string f = p.str().str();
   if (llvm::StringRef(f).startswith(C.root + "/")) f = f.substr(C.root.size() + 1);
   return f + ":" + std::to_string(C.SM->getExpansionLineNumber(E));
}

unsigned lineOf(SourceLocation L)
{
   if (L.isInvalid()) return 0;
   return C.SM->getExpansionLineNumber(C.SM->getExpansionLoc(L));
}

std::string typeStr(QualType T)
{
   if (T.isNull()) return "";
   return T.getCanonicalType().getAsString(C.PP);
}

std::string targsStr(const TemplateArgumentList& L)
{
   std::string s;
   llvm::raw_string_ostream os(s);
   printTemplateArgumentList(os, L.asArray(), C.PP);
   return os.str();
}

json::Array targsArr(llvm::ArrayRef<TemplateArgument> Args)
{
   json::Array a;
   for (auto& A : Args) {
      if (A.getKind() == TemplateArgument::Pack) {
         for (auto& P : A.pack_elements()) {
            std::string s; llvm::raw_string_ostream os(s);
            if (P.getKind() == TemplateArgument::Type) os << typeStr(P.getAsType());
            else P.print(C.PP, os, true);
            a.push_back(os.str());
         }
         continue;
      }
      std::string s; llvm::raw_string_ostream os(s);
      if (A.getKind() == TemplateArgument::Type) os << typeStr(A.getAsType());
      else A.print(C.PP, os, true);
      a.push_back(os.str());
   }
   return a;
}

std::string fnId(const FunctionDecl* FD);
std::string recName(const CXXRecordDecl* RD);

std::string ctxName(const DeclContext* DC)
{
   while (DC and (isa<LinkageSpecDecl>(DC) or isa<ExportDecl>(DC) or isa<RequiresExprBodyDecl>(DC)
                  or isa<BlockDecl>(DC) or isa<CapturedDecl>(DC)))
      DC = DC->getParent();
   if (DC == nullptr or isa<TranslationUnitDecl>(DC)) return "";
   if (auto NS = dyn_cast<NamespaceDecl>(DC)) {
      std::string p = ctxName(NS->getParent());
      if (NS->isInline()) return p;             // std::__cxx11 and friends
      std::string n = NS->isAnonymousNamespace() ? "(anon)" : NS->getNameAsString();
      return p.empty() ? n : p + "::" + n;
   }
   if (auto RD = dyn_cast<CXXRecordDecl>(DC)) return recName(RD);
   if (auto FD = dyn_cast<FunctionDecl>(DC)) return fnId(FD);
   if (auto ED = dyn_cast<EnumDecl>(DC)) {
      std::string p = ctxName(ED->getParent());
      std::string n = ED->getNameAsString();
      return p.empty() ? n : p + "::" + n;
   }
   if (auto ND = dyn_cast<NamedDecl>(DC)) return ND->getQualifiedNameAsString();
   return "?";
}

std::string recName(const CXXRecordDecl* RD)
{
   auto it = C.idCache.find(RD->getCanonicalDecl());
   if (it != C.idCache.end()) return it->second;
   std::string p = ctxName(RD->getDeclContext());
   std::string n;
   if (RD->isLambda()) {
      auto ln = C.lambdaNames.find(RD->getCanonicalDecl());
      if (ln != C.lambdaNames.end()) n = "(lambda " + ln->second + ")";
      else {
         int k = C.anonCounter[p + "::(lambda)"]++;
         n = "(lambda#" + std::to_string(k) + ")";
      }
   }
   else if (RD->getIdentifier() == nullptr) {
      if (auto TD = RD->getTypedefNameForAnonDecl()) n = TD->getNameAsString();
      else {
         int k = C.anonCounter[p + "::(anon)"]++;
         n = "(anon#" + std::to_string(k) + ")";
      }
   }
   else {
      n = RD->getNameAsString();
      if (auto S = dyn_cast<ClassTemplateSpecializationDecl>(RD))
         n += targsStr(S->getTemplateArgs());
   }
   std::string r = p.empty() ? n : p + "::" + n;
   C.idCache[RD->getCanonicalDecl()] = r;
   return r;
}

std::string fnQName(const FunctionDecl* FD)
{
   std::string p = ctxName(FD->getDeclContext());
   std::string n = FD->getNameAsString();
   if (auto Args = FD->getTemplateSpecializationArgs())
      n += targsStr(*Args);
   return p.empty() ? n : p + "::" + n;
}

std::string fnId(const FunctionDecl* FD)
{
   auto it = C.idCache.find(FD->getCanonicalDecl());
   if (it != C.idCache.end()) return it->second;
   std::string s = fnQName(FD) + "(";
   bool first = true;
   for (auto P : FD->parameters()) {
      if (!first) s += ", ";
      first = false;
      s += typeStr(P->getType());
   }
   if (FD->isVariadic()) s += first ? "..." : ", ...";
   s += ")";
   if (auto MD = dyn_cast<CXXMethodDecl>(FD)) {
      if (MD->isConst()) s += " const";
      if (MD->getRefQualifier() == RQ_RValue) s += " &&";
   }
   // two instantiations that differ only in a closure type print alike ("f<(lambda)>((lambda))"): the later one is
   // told apart by the closure types among its template arguments
   static std::map<std::string, const Decl*> taken;
   auto tk = taken.find(s);
   if (tk != taken.end() and tk->second != FD->getCanonicalDecl()) {
      std::string tag;
      if (auto Args = FD->getTemplateSpecializationArgs())
         for (auto& A : Args->asArray())
            if (A.getKind() == TemplateArgument::Type)
               if (auto RD = A.getAsType()->getAsCXXRecordDecl())
                  if (RD->isLambda()) tag += (tag.empty() ? "" : ", ") + recName(RD);
      if (!tag.empty()) s += " [with " + tag + "]";
   }
   taken.emplace(s, FD->getCanonicalDecl());
   C.idCache[FD->getCanonicalDecl()] = s;
   return s;
}

// ---------------------------------------------------------------------------
// Body serialisation
// ---------------------------------------------------------------------------
struct BodyWriter {
   const FunctionDecl* Fn;
   std::map<const VarDecl*, int> varIds;
   int nextVar = 0;

   explicit BodyWriter(const FunctionDecl* F) : Fn(F) { }

   int varId(const VarDecl* V)
   {
      auto it = varIds.find(V);
      if (it != varIds.end()) return it->second;
      int k = nextVar++;
      varIds[V] = k;
      return k;
   }

   json::Object calleeObj(const FunctionDecl* FD)
   {
      json::Object o;
      o["id"] = fnId(FD);
      o["name"] = FD->getNameAsString();
      o["q"] = fnQName(FD);
      if (auto MD = dyn_cast<CXXMethodDecl>(FD)) {
         o["parent"] = recName(MD->getParent());
         if (auto S = dyn_cast<ClassTemplateSpecializationDecl>(MD->getParent()))
            o["ptargs"] = targsArr(S->getTemplateArgs().asArray());
         if (MD->isVirtual()) o["virtual"] = true;
         if (MD->isStatic()) o["static"] = true;
      }
      if (auto Args = FD->getTemplateSpecializationArgs())
         o["targs"] = targsArr(Args->asArray());
      o["repo"] = inRepoLoc(FD->getLocation());
      o["ret"] = typeStr(FD->getReturnType());
      return o;
   }

   void constVal(json::Object& o, const Expr* E)
   {
      if (E->isValueDependent() or E->isTypeDependent()) return;
      QualType T = E->getType();
      if (T.isNull()) return;
      if (!(T->isIntegralOrEnumerationType())) return;
      if (isa<IntegerLiteral>(E) or isa<CXXBoolLiteralExpr>(E) or isa<CharacterLiteral>(E)) return;
      Expr::EvalResult R;
      if (E->EvaluateAsInt(R, *C.AC, Expr::SE_NoSideEffects)) {
         llvm::SmallString<32> s;
         R.Val.getInt().toString(s, 10);
         o["cv"] = s.str().str();
      }
   }

   json::Value X(const Stmt* S)
   {
      if (S == nullptr) return nullptr;
      if (auto E = dyn_cast<Expr>(S)) return XE(E);
      json::Object o;
      o["ln"] = (int64_t)lineOf(S->getBeginLoc());
      switch (S->getStmtClass()) {
      case Stmt::CompoundStmtClass: {
         o["k"] = "compound";
         json::Array b;
         for (auto c : cast<CompoundStmt>(S)->body()) b.push_back(X(c));
         o["b"] = std::move(b);
         break;
      }
      case Stmt::IfStmtClass: {
         auto I = cast<IfStmt>(S);
         o["k"] = "if";
         if (I->getInit()) o["init"] = X(I->getInit());
         if (I->getConditionVariable()) o["var"] = varObj(I->getConditionVariable());
         o["c"] = X(I->getCond());
         o["then"] = X(I->getThen());
         if (I->getElse()) o["else"] = X(I->getElse());
         if (I->isConstexpr()) o["constexpr"] = true;
         break;
      }
      case Stmt::WhileStmtClass: {
         auto W = cast<WhileStmt>(S);
         o["k"] = "while";
         if (W->getConditionVariable()) o["var"] = varObj(W->getConditionVariable());
         o["c"] = X(W->getCond());
         o["b"] = X(W->getBody());
         break;
      }
      case Stmt::DoStmtClass: {
         auto W = cast<DoStmt>(S);
         o["k"] = "do";
         o["c"] = X(W->getCond());
         o["b"] = X(W->getBody());
         break;
      }
      case Stmt::ForStmtClass: {
         auto F = cast<ForStmt>(S);
         o["k"] = "for";
         if (F->getInit()) o["init"] = X(F->getInit());
         if (F->getConditionVariable()) o["var"] = varObj(F->getConditionVariable());
         if (F->getCond()) o["c"] = X(F->getCond());
         if (F->getInc()) o["inc"] = X(F->getInc());
         o["b"] = X(F->getBody());
         break;
      }
      case Stmt::CXXForRangeStmtClass: {
         auto F = cast<CXXForRangeStmt>(S);
         o["k"] = "rangefor";
         if (F->getInit()) o["init"] = X(F->getInit());
         o["range"] = X(F->getRangeInit());
         o["var"] = varObj(F->getLoopVariable(), /*withInit=*/false);
         if (F->getBeginStmt()) o["begin"] = X(F->getBeginStmt());
         if (F->getEndStmt()) o["end"] = X(F->getEndStmt());
         o["b"] = X(F->getBody());
         break;
      }
      case Stmt::ReturnStmtClass: {
         o["k"] = "return";
         if (auto V = cast<ReturnStmt>(S)->getRetValue()) o["e"] = X(V);
         break;
      }
      case Stmt::DeclStmtClass: {
         o["k"] = "decl";
         json::Array vars;
         for (auto D : cast<DeclStmt>(S)->decls()) {
            if (auto DD = dyn_cast<DecompositionDecl>(D)) {
               vars.push_back(varObj(DD));
               // tuple-like decomposition: each binding names a hidden variable initialised with get<i>(object)
               for (auto B : DD->bindings())
                  if (auto HV = B->getHoldingVar()) vars.push_back(varObj(HV));
            }
            else if (auto V = dyn_cast<VarDecl>(D)) vars.push_back(varObj(V));
         }
         o["vars"] = std::move(vars);
         break;
      }
      case Stmt::SwitchStmtClass: {
         auto W = cast<SwitchStmt>(S);
         o["k"] = "switch";
         if (W->getInit()) o["init"] = X(W->getInit());
         o["c"] = X(W->getCond());
         o["b"] = X(W->getBody());
         break;
      }
      case Stmt::CaseStmtClass: {
         auto W = cast<CaseStmt>(S);
         o["k"] = "case";
         o["v"] = X(W->getLHS());
         o["b"] = X(W->getSubStmt());
         break;
      }
      case Stmt::DefaultStmtClass:
         o["k"] = "default";
         o["b"] = X(cast<DefaultStmt>(S)->getSubStmt());
         break;
      case Stmt::BreakStmtClass: o["k"] = "break"; break;
      case Stmt::ContinueStmtClass: o["k"] = "continue"; break;
      case Stmt::NullStmtClass: o["k"] = "null"; break;
      case Stmt::AttributedStmtClass:
         return X(cast<AttributedStmt>(S)->getSubStmt());
      case Stmt::CXXTryStmtClass: {
         auto T = cast<CXXTryStmt>(S);
         o["k"] = "try";
         o["b"] = X(T->getTryBlock());
         json::Array hs;
         for (unsigned i = 0; i < T->getNumHandlers(); ++i) {
            auto H = T->getHandler(i);
            json::Object h;
            h["t"] = H->getExceptionDecl() ? typeStr(H->getCaughtType()) : "...";
            if (H->getExceptionDecl()) h["var"] = varObj(H->getExceptionDecl(), false);
            h["b"] = X(H->getHandlerBlock());
            hs.push_back(std::move(h));
         }
         o["handlers"] = std::move(hs);
         break;
      }
      default: {
         o["k"] = "otherstmt";
         o["cls"] = S->getStmtClassName();
         json::Array ch;
         for (auto c : S->children()) ch.push_back(X(c));
         o["ch"] = std::move(ch);
      }
      }
      return std::move(o);
   }

   json::Object varObj(const VarDecl* V, bool withInit = true)
   {
      json::Object v;
      v["name"] = V->getNameAsString();
      v["id"] = varId(V);
      v["t"] = typeStr(V->getType());
      if (V->getType()->isReferenceType()) v["ref"] = true;
      if (V->isStaticLocal()) v["static"] = true;
      if (V->isConstexpr()) v["constexpr"] = true;
      if (V->getTLSKind() != VarDecl::TLS_None) v["tls"] = true;
      // a reference bound to a temporary whose lifetime it extends (`const auto& x = f();` with f returning by value):
      // the object lives in this function's frame
      if (V->getType()->isReferenceType() and V->getInit()) {
         const Expr* I = V->getInit();
         if (auto EWC = dyn_cast<ExprWithCleanups>(I)) I = EWC->getSubExpr();
         if (auto MTE = dyn_cast<MaterializeTemporaryExpr>(I->IgnoreParens()))
            if (MTE->getExtendingDecl() == V) v["extends_temporary"] = true;
      }
      // does the declared type follow the initialiser (auto, decltype, a substituted template parameter) or is it fixed
      // by the text of the declaration (`const int x = f()` inside a template converts whatever f returns)?
      if (auto TSI = V->getTypeSourceInfo()) {
         QualType Q = TSI->getType();
         bool follows = Q->getContainedDeducedType() != nullptr;
         for (int guard = 0; !follows and guard < 16; ++guard) {
            const Type* TP = Q.getTypePtr();
            if (isa<DecltypeType>(TP) or isa<SubstTemplateTypeParmType>(TP) or isa<TypeOfExprType>(TP)) { follows = true; break; }
            if (auto RT = dyn_cast<ReferenceType>(TP)) { Q = RT->getPointeeType(); continue; }
            QualType D = Q.getSingleStepDesugaredType(*C.AC);
            if (D == Q) break;
            Q = D;
         }
         if (follows) v["follows_init"] = true;
      }
      if (withInit and V->getInit()) v["init"] = X(V->getInit());
      return v;
   }

   static const char* castKindName(const CastExpr* CE) { return CE->getCastKindName(); }

   json::Value XE(const Expr* E)
   {
      // transparent wrappers
      if (auto P = dyn_cast<ParenExpr>(E)) return XE(P->getSubExpr());
      if (auto P = dyn_cast<ExprWithCleanups>(E)) return XE(P->getSubExpr());
      if (auto P = dyn_cast<MaterializeTemporaryExpr>(E)) return XE(P->getSubExpr());
      if (auto P = dyn_cast<CXXBindTemporaryExpr>(E)) return XE(P->getSubExpr());
      if (auto P = dyn_cast<SubstNonTypeTemplateParmExpr>(E)) return XE(P->getReplacement());
      if (auto P = dyn_cast<CXXDefaultInitExpr>(E)) return XE(P->getExpr());
      if (auto P = dyn_cast<CXXStdInitializerListExpr>(E)) return XE(P->getSubExpr());
      if (auto P = dyn_cast<OpaqueValueExpr>(E)) {
         if (P->getSourceExpr()) return XE(P->getSourceExpr());
      }
      if (auto P = dyn_cast<CXXRewrittenBinaryOperator>(E)) return XE(P->getSemanticForm());

      json::Object o;
      o["t"] = typeStr(E->getType());
      o["ln"] = (int64_t)lineOf(E->getExprLoc());

      if (auto CE = dyn_cast<ConstantExpr>(E)) {
         // an immediate invocation or a constant expression wrapper: keep the value and the form
         json::Value sub = XE(CE->getSubExpr());
         if (auto so = sub.getAsObject()) {
            json::Object c = *so;
            constVal(c, CE);
            c["constant_expr"] = true;
            return std::move(c);
         }
         return sub;
      }

      if (auto ICE = dyn_cast<ImplicitCastExpr>(E)) {
         if (ICE->getCastKind() == CK_LValueToRValue) {
            // keep the read when the location is computed (call returning a reference, subscript, deref):
            // the value must be taken at this point, not when it is used later
            const Expr* sub = ICE->getSubExpr()->IgnoreParens();
            if (isa<CallExpr>(sub) or isa<ArraySubscriptExpr>(sub) or isa<ConditionalOperator>(sub)
                or (isa<UnaryOperator>(sub) and cast<UnaryOperator>(sub)->getOpcode() == UO_Deref)) {
               o["k"] = "cast";
               o["ck"] = "LValueToRValue";
               o["e"] = XE(ICE->getSubExpr());
               return std::move(o);
            }
         }
         switch (ICE->getCastKind()) {
         case CK_LValueToRValue: case CK_NoOp: case CK_FunctionToPointerDecay:
         case CK_ConstructorConversion: case CK_UserDefinedConversion:
         case CK_BuiltinFnToFnPtr:
            return XE(ICE->getSubExpr());
         default: break;
         }
         o["k"] = "cast";
         o["ck"] = castKindName(ICE);
         o["e"] = XE(ICE->getSubExpr());
         constVal(o, E);
         return std::move(o);
      }
      if (auto ECE = dyn_cast<ExplicitCastExpr>(E)) {
         o["k"] = "cast";
         o["ck"] = castKindName(ECE);
         const char* how = "c";
         if (isa<CXXStaticCastExpr>(E)) how = "static";
         else if (isa<CXXReinterpretCastExpr>(E)) how = "reinterpret";
         else if (isa<CXXConstCastExpr>(E)) how = "const";
         else if (isa<CXXFunctionalCastExpr>(E)) how = "functional";
         else if (isa<CXXDynamicCastExpr>(E)) how = "dynamic";
         o["explicit"] = how;
         o["e"] = XE(ECE->getSubExpr());
         constVal(o, E);
         return std::move(o);
      }

      switch (E->getStmtClass()) {
      case Stmt::DeclRefExprClass: {
         auto DR = cast<DeclRefExpr>(E);
         const ValueDecl* D = DR->getDecl();
         // a structured binding is the expression it stands for (a member of, or std::get on, the decomposed object)
         if (auto BD = dyn_cast<BindingDecl>(D))
            if (auto BE = BD->getBinding())
               if (!BE->isTypeDependent() and !BE->isValueDependent()) return XE(BE);
         o["k"] = "ref";
         o["name"] = D->getNameAsString();
         if (auto P = dyn_cast<ParmVarDecl>(D)) {
            bool own = false;
            if (Fn) for (auto Q : Fn->parameters()) if (Q == P) own = true;
            o["kind"] = own ? "parm" : "outerparm";
            o["idx"] = (int64_t)P->getFunctionScopeIndex();
         }
         else if (auto V = dyn_cast<VarDecl>(D)) {
            if (V->isLocalVarDecl() and !V->isStaticLocal()) {
               o["kind"] = DR->refersToEnclosingVariableOrCapture() ? "capture" : "local";
               o["id"] = varId(V);
            }
            else {
               o["kind"] = "global";
               o["q"] = ctxName(V->getDeclContext()) + "::" + V->getNameAsString();
               if (V->isConstexpr()) o["constexpr"] = true;
               if (V->isStaticLocal()) o["static_local"] = true;
               o["repo"] = inRepoLoc(V->getLocation());
            }
         }
         else if (auto EC = dyn_cast<EnumConstantDecl>(D)) {
            o["kind"] = "enumerator";
            o["q"] = ctxName(EC->getDeclContext()) + "::" + EC->getNameAsString();
            llvm::SmallString<32> s;
            EC->getInitVal().toString(s, 10);
            o["cv"] = s.str().str();
         }
         else if (auto F = dyn_cast<FunctionDecl>(D)) {
            o["kind"] = "fn";
            o["fn"] = calleeObj(F);
         }
         else if (isa<BindingDecl>(D)) o["kind"] = "binding";
         else o["kind"] = "other";
         if (!o.get("cv")) constVal(o, E);
         break;
      }
      case Stmt::MemberExprClass: {
         auto M = cast<MemberExpr>(E);
         const ValueDecl* D = M->getMemberDecl();
         if (auto F = dyn_cast<FieldDecl>(D)) {
            o["k"] = "member";
            o["name"] = F->getNameAsString();
            if (auto RD = dyn_cast<CXXRecordDecl>(F->getParent())) o["cls"] = recName(RD);
            o["base"] = XE(M->getBase());
            if (M->isArrow()) o["arrow"] = true;
            if (F->isMutable()) o["mutable"] = true;
         }
         else if (auto V = dyn_cast<VarDecl>(D)) {
            o["k"] = "ref";
            o["kind"] = "global";
            o["name"] = V->getNameAsString();
            o["q"] = ctxName(V->getDeclContext()) + "::" + V->getNameAsString();
            if (V->isConstexpr()) o["constexpr"] = true;
            o["repo"] = inRepoLoc(V->getLocation());
            constVal(o, E);
         }
         else if (auto MD = dyn_cast<CXXMethodDecl>(D)) {
            o["k"] = "boundmember";
            o["fn"] = calleeObj(MD);
            o["base"] = XE(M->getBase());
         }
         else if (auto EC = dyn_cast<EnumConstantDecl>(D)) {
            o["k"] = "ref";
            o["kind"] = "enumerator";
            o["name"] = EC->getNameAsString();
            o["q"] = ctxName(EC->getDeclContext()) + "::" + EC->getNameAsString();
            llvm::SmallString<32> s;
            EC->getInitVal().toString(s, 10);
            o["cv"] = s.str().str();
         }
         else { o["k"] = "other"; o["cls"] = "MemberExpr"; }
         break;
      }
      case Stmt::CXXThisExprClass:
         o["k"] = "this";
         if (cast<CXXThisExpr>(E)->isImplicit()) o["implicit"] = true;
         break;
      case Stmt::CXXMemberCallExprClass: {
         auto CE = cast<CXXMemberCallExpr>(E);
         o["k"] = "call";
         const CXXMethodDecl* MD = CE->getMethodDecl();
         if (MD) {
            o["callee"] = calleeObj(MD);
            bool qualified = false;
            if (auto ME = dyn_cast<MemberExpr>(CE->getCallee()->IgnoreParens()))
               qualified = ME->hasQualifier();
            if (MD->isVirtual() and !qualified) o["dyn"] = true;
            if (qualified) o["qualified"] = true;
         }
         else o["fnexpr"] = XE(CE->getCallee());
         if (auto Obj = CE->getImplicitObjectArgument()) {
            o["obj"] = XE(Obj);
            if (auto ME = dyn_cast<MemberExpr>(CE->getCallee()->IgnoreParens()))
               if (ME->isArrow()) o["arrow"] = true;
         }
         json::Array args;
         for (auto A : CE->arguments()) args.push_back(XE(A));
         o["args"] = std::move(args);
         constVal(o, E);
         break;
      }
      case Stmt::CXXOperatorCallExprClass: {
         auto CE = cast<CXXOperatorCallExpr>(E);
         o["k"] = "call";
         o["op"] = getOperatorSpelling(CE->getOperator());
         const FunctionDecl* FD = CE->getDirectCallee();
         if (FD) o["callee"] = calleeObj(FD);
         else o["fnexpr"] = XE(CE->getCallee());
         json::Array args;
         bool member = FD and isa<CXXMethodDecl>(FD) and !cast<CXXMethodDecl>(FD)->isStatic();
         unsigned i = 0;
         for (auto A : CE->arguments()) {
            if (member and i == 0) o["obj"] = XE(A);
            else args.push_back(XE(A));
            ++i;
         }
         if (member and FD and cast<CXXMethodDecl>(FD)->isVirtual()) o["dyn"] = true;
         o["args"] = std::move(args);
         constVal(o, E);
         break;
      }
      case Stmt::CallExprClass:
      case Stmt::UserDefinedLiteralClass: {
         auto CE = cast<CallExpr>(E);
         o["k"] = "call";
         if (auto FD = CE->getDirectCallee()) o["callee"] = calleeObj(FD);
         else o["fnexpr"] = XE(CE->getCallee());
         json::Array args;
         for (auto A : CE->arguments()) args.push_back(XE(A));
         o["args"] = std::move(args);
         constVal(o, E);
         break;
      }
      case Stmt::CXXConstructExprClass:
      case Stmt::CXXTemporaryObjectExprClass: {
         auto CE = cast<CXXConstructExpr>(E);
         o["k"] = "ctor";
         o["callee"] = calleeObj(CE->getConstructor());
         o["cls"] = recName(CE->getConstructor()->getParent());
         if (CE->isElidable()) o["elidable"] = true;
         if (CE->isListInitialization()) o["list"] = true;
         if (CE->getConstructor()->isCopyOrMoveConstructor()) o["copy"] = true;
         if (CE->getConstructor()->isImplicit()) o["implicit"] = true;
         json::Array args;
         for (auto A : CE->arguments()) args.push_back(XE(A));
         o["args"] = std::move(args);
         break;
      }
      case Stmt::CXXInheritedCtorInitExprClass: {
         auto CE = cast<CXXInheritedCtorInitExpr>(E);
         o["k"] = "inherited_ctor";
         o["callee"] = calleeObj(CE->getConstructor());
         o["cls"] = recName(CE->getConstructor()->getParent());
         break;
      }
      case Stmt::CXXNewExprClass: {
         auto NE = cast<CXXNewExpr>(E);
         o["k"] = "new";
         o["type"] = typeStr(NE->getAllocatedType());
         if (NE->isArray()) o["array"] = true;
         if (NE->getOperatorNew()) o["opnew"] = calleeObj(NE->getOperatorNew());
         json::Array pl;
         for (auto A : NE->placement_arguments()) pl.push_back(XE(A));
         o["placement"] = std::move(pl);
         if (NE->getInitializer()) o["init"] = XE(NE->getInitializer());
         break;
      }
      case Stmt::CXXDeleteExprClass: {
         auto DE = cast<CXXDeleteExpr>(E);
         o["k"] = "delete";
         if (DE->isArrayForm()) o["array"] = true;
         o["e"] = XE(DE->getArgument());
         break;
      }
      case Stmt::InitListExprClass: {
         auto IL = cast<InitListExpr>(E);
         if (IL->isSemanticForm() == false and IL->getSemanticForm()) IL = IL->getSemanticForm();
         o["k"] = "initlist";
         json::Array el;
         for (auto I : IL->inits()) el.push_back(XE(I));
         o["elts"] = std::move(el);
         if (IL->hasArrayFiller()) o["filler"] = true;
         break;
      }
      case Stmt::ImplicitValueInitExprClass:
      case Stmt::CXXScalarValueInitExprClass:
         o["k"] = "valueinit";
         break;
      case Stmt::CXXNullPtrLiteralExprClass:
      case Stmt::GNUNullExprClass:
         o["k"] = "lit"; o["lt"] = "null";
         break;
      case Stmt::IntegerLiteralClass: {
         o["k"] = "lit"; o["lt"] = "int";
         llvm::SmallString<32> s;
         cast<IntegerLiteral>(E)->getValue().toString(s, 10, E->getType()->isSignedIntegerType());
         o["cv"] = s.str().str();
         break;
      }
      case Stmt::CharacterLiteralClass:
         o["k"] = "lit"; o["lt"] = "char";
         o["cv"] = std::to_string(cast<CharacterLiteral>(E)->getValue());
         break;
      case Stmt::CXXBoolLiteralExprClass:
         o["k"] = "lit"; o["lt"] = "bool";
         o["cv"] = cast<CXXBoolLiteralExpr>(E)->getValue() ? "1" : "0";
         break;
      case Stmt::FloatingLiteralClass:
         o["k"] = "lit"; o["lt"] = "float";
         break;
      case Stmt::StringLiteralClass: {
         auto SL = cast<StringLiteral>(E);
         o["k"] = "lit"; o["lt"] = "str";
         json::Array bytes;
         std::string printable;
         bool ok = true;
         if (SL->getCharByteWidth() == 1) {
            for (unsigned char c : SL->getBytes()) {
               bytes.push_back((int64_t)c);
               if (c >= 0x20 and c < 0x7f) printable.push_back((char)c); else ok = false;
            }
         }
         else ok = false;
         o["bytes"] = std::move(bytes);
         if (ok) o["v"] = printable;
         break;
      }
      case Stmt::UnaryOperatorClass: {
         auto U = cast<UnaryOperator>(E);
         o["k"] = "unop";
         o["op"] = UnaryOperator::getOpcodeStr(U->getOpcode()).str();
         if (U->isPostfix()) o["post"] = true;
         o["e"] = XE(U->getSubExpr());
         constVal(o, E);
         break;
      }
      case Stmt::BinaryOperatorClass:
      case Stmt::CompoundAssignOperatorClass: {
         auto B = cast<BinaryOperator>(E);
         o["k"] = "binop";
         o["op"] = B->getOpcodeStr().str();
         o["l"] = XE(B->getLHS());
         o["r"] = XE(B->getRHS());
         constVal(o, E);
         break;
      }
      case Stmt::ConditionalOperatorClass: {
         auto Q = cast<ConditionalOperator>(E);
         o["k"] = "cond";
         o["c"] = XE(Q->getCond());
         o["then"] = XE(Q->getTrueExpr());
         o["else"] = XE(Q->getFalseExpr());
         constVal(o, E);
         break;
      }
      case Stmt::UnaryExprOrTypeTraitExprClass: {
         auto U = cast<UnaryExprOrTypeTraitExpr>(E);
         o["k"] = "sizeof";
         o["of"] = U->isArgumentType() ? typeStr(U->getArgumentType()) : typeStr(U->getArgumentExpr()->getType());
         constVal(o, E);
         break;
      }
      case Stmt::LambdaExprClass: {
         auto L = cast<LambdaExpr>(E);
         o["k"] = "lambda";
         o["cls"] = recName(L->getLambdaClass());
         json::Array caps;
         auto CI = L->capture_init_begin();
         for (auto& Cp : L->captures()) {
            json::Object c;
            if (Cp.capturesVariable()) c["name"] = Cp.getCapturedVar()->getNameAsString();
            else if (Cp.capturesThis()) c["name"] = "this";
            c["byref"] = Cp.getCaptureKind() == LCK_ByRef;
            if (CI != L->capture_init_end() and *CI) c["e"] = XE(*CI);
            ++CI;
            caps.push_back(std::move(c));
         }
         o["captures"] = std::move(caps);
         break;
      }
      case Stmt::CXXThrowExprClass: {
         o["k"] = "throw";
         if (auto S = cast<CXXThrowExpr>(E)->getSubExpr()) {
            o["e"] = XE(S);
            o["thrown"] = typeStr(S->getType());
         }
         break;
      }
      case Stmt::CXXTypeidExprClass:
         o["k"] = "typeid";
         break;
      case Stmt::ArraySubscriptExprClass: {
         auto A = cast<ArraySubscriptExpr>(E);
         o["k"] = "index";
         o["base"] = XE(A->getBase());
         o["idx"] = XE(A->getIdx());
         break;
      }
      case Stmt::CXXDefaultArgExprClass: {
         auto D = cast<CXXDefaultArgExpr>(E);
         o["k"] = "defarg";
         o["e"] = XE(D->getExpr());
         break;
      }
      case Stmt::RequiresExprClass:
      case Stmt::ConceptSpecializationExprClass:
      case Stmt::TypeTraitExprClass:
      case Stmt::CXXNoexceptExprClass:
         o["k"] = "trait";
         constVal(o, E);
         break;
      case Stmt::PredefinedExprClass:
         o["k"] = "lit"; o["lt"] = "str";
         break;
      default: {
         o["k"] = "other";
         o["cls"] = E->getStmtClassName();
         json::Array ch;
         for (auto c : E->children()) ch.push_back(X(c));
         o["ch"] = std::move(ch);
         constVal(o, E);
      }
      }
      return std::move(o);
   }
};

// ---------------------------------------------------------------------------
// The AST walk
// ---------------------------------------------------------------------------
struct LambdaNamer : RecursiveASTVisitor<LambdaNamer> {
   bool shouldVisitTemplateInstantiations() const { return true; }
   bool shouldVisitImplicitCode() const { return false; }
   bool VisitVarDecl(VarDecl* V)
   {
      if (!V->getInit()) return true;
      const Expr* I = V->getInit()->IgnoreImplicit();
      while (true) {
         if (auto CE = dyn_cast<CXXConstructExpr>(I)) {
            if (CE->getNumArgs() == 1) { I = CE->getArg(0)->IgnoreImplicit(); continue; }
         }
         break;
      }
      if (auto L = dyn_cast<LambdaExpr>(I))
         C.lambdaNames[L->getLambdaClass()->getCanonicalDecl()] = V->getNameAsString();
      return true;
   }
};

struct FindNew : RecursiveASTVisitor<FindNew> {
   const CXXConstructorDecl* Ctor = nullptr;
   bool aggregate = false;
   QualType T;
   bool VisitCXXNewExpr(CXXNewExpr* NE)
   {
      T = NE->getAllocatedType();
      if (auto CE = NE->getConstructExpr()) Ctor = CE->getConstructor();
      else if (NE->getInitializer()) aggregate = true;
      return true;
   }
};

struct Scanner : RecursiveASTVisitor<Scanner> {
   json::Array records, functions, globals, enums, constructs;
   std::set<std::string> seenFn, seenRec, seenGlobal;

   bool shouldVisitTemplateInstantiations() const { return true; }
   bool shouldVisitImplicitCode() const { return true; }

   static const char* accessStr(AccessSpecifier A)
   {
      switch (A) {
      case AS_public: return "public";
      case AS_protected: return "protected";
      case AS_private: return "private";
      default: return "none";
      }
   }

   bool VisitEnumDecl(EnumDecl* ED)
   {
      if (!ED->isThisDeclarationADefinition() or !inRepoLoc(ED->getLocation())) return true;
      if (ED->isDependentType()) return true;
      json::Object o;
      std::string p = ctxName(ED->getDeclContext());
      o["name"] = p.empty() ? ED->getNameAsString() : p + "::" + ED->getNameAsString();
      o["loc"] = locStr(ED->getLocation());
      o["underlying"] = typeStr(ED->getIntegerType());
      o["scoped"] = ED->isScoped();
      json::Array es;
      for (auto EC : ED->enumerators()) {
         json::Object e;
         e["name"] = EC->getNameAsString();
         llvm::SmallString<32> s;
         EC->getInitVal().toString(s, 10);
         e["value"] = s.str().str();
         e["ln"] = (int64_t)lineOf(EC->getLocation());
         es.push_back(std::move(e));
      }
      o["enumerators"] = std::move(es);
      enums.push_back(std::move(o));
      return true;
   }

   static bool typeHasMutable(QualType T, int depth = 0)
   {
      if (T.isNull() or depth > 6) return false;
      T = T.getCanonicalType();
      if (auto AT = dyn_cast<ArrayType>(T.getTypePtr())) return typeHasMutable(AT->getElementType(), depth + 1);
      auto RD = T->getAsCXXRecordDecl();
      if (!RD or !RD->hasDefinition()) return false;
      RD = RD->getDefinition();
      for (auto F : RD->fields()) {
         if (F->isMutable()) return true;
         if (typeHasMutable(F->getType(), depth + 1)) return true;
      }
      for (auto& B : RD->bases())
         if (typeHasMutable(B.getType(), depth + 1)) return true;
      return false;
   }

   bool VisitVarDecl(VarDecl* V)
   {
      if (isa<ParmVarDecl>(V)) return true;
      if (!V->hasGlobalStorage()) return true;
      if (!inRepoLoc(V->getLocation())) return true;
      if (V->getDeclContext()->isDependentContext() or V->getType()->isDependentType()) return true;
      if (!V->isThisDeclarationADefinition() and !V->isStaticDataMember()) return true;
      json::Object o;
      std::string q = ctxName(V->getDeclContext()) + "::" + V->getNameAsString();
      if (!seenGlobal.insert(q + "@" + locStr(V->getLocation())).second) return true;
      o["name"] = V->getNameAsString();
      o["q"] = q;
      o["t"] = typeStr(V->getType());
      o["loc"] = locStr(V->getLocation());
      o["constexpr"] = V->isConstexpr();
      o["const"] = V->getType().isConstQualified()
         or (V->getType()->isArrayType() and C.AC->getBaseElementType(V->getType()).isConstQualified());
      o["storage"] = V->isStaticLocal() ? "static_local" : (V->isStaticDataMember() ? "static_member" : "namespace");
      o["tls"] = V->getTLSKind() != VarDecl::TLS_None;
      o["mutable_member"] = typeHasMutable(V->getType());
      o["is_definition"] = (bool)V->isThisDeclarationADefinition();
      if (V->hasInit()) {
         o["constant_init"] = V->hasConstantInitialization();
         // a function-local static is initialised in the context of its function (it may name the parameters)
         const FunctionDecl* encl = dyn_cast_or_null<FunctionDecl>(V->getParentFunctionOrMethod());
         BodyWriter W(encl ? encl : nullptr_fn());
         o["init"] = W.X(V->getInit());
         if (encl) o["in_function"] = fnId(encl);
      }
      globals.push_back(std::move(o));
      return true;
   }

   static const FunctionDecl* nullptr_fn()
   {
      static FunctionDecl* dummy = nullptr;
      return dummy;
   }

   bool VisitCXXRecordDecl(CXXRecordDecl* RD)
   {
      if (!RD->isThisDeclarationADefinition()) return true;
      if (RD->isDependentContext()) return true;
      if (!inRepoLoc(RD->getLocation())) return true;
      if (RD->isInjectedClassName()) return true;
      std::string name = recName(RD);
      if (!seenRec.insert(name).second) return true;
      json::Object o;
      o["name"] = name;
      o["simple"] = RD->getNameAsString();
      o["loc"] = locStr(RD->getLocation());
      o["kind"] = RD->isUnion() ? "union" : (RD->isClass() ? "class" : "struct");
      o["abstract"] = RD->isAbstract();
      o["polymorphic"] = RD->isPolymorphic();
      o["aggregate"] = RD->isAggregate();
      if (RD->isLambda()) o["lambda"] = true;
      if (RD->isLocalClass()) o["local"] = true;
      if (auto S = dyn_cast<ClassTemplateSpecializationDecl>(RD)) {
         o["template"] = ctxName(S->getSpecializedTemplate()->getDeclContext()) + "::" + S->getSpecializedTemplate()->getNameAsString();
         o["targs"] = targsArr(S->getTemplateArgs().asArray());
      }
      o["final"] = RD->isEffectivelyFinal();
      o["trivially_destructible"] = RD->hasTrivialDestructor();
      o["user_dtor"] = RD->hasUserDeclaredDestructor();
      // copy / move as Sema computes them
      {
         bool copyable = false, movable = false;
         for (auto Ctor : RD->ctors()) {
            if (Ctor->isDeleted()) continue;
            if (Ctor->isCopyConstructor()) copyable = true;
            if (Ctor->isMoveConstructor()) movable = true;
         }
         if (RD->needsImplicitCopyConstructor() and !RD->defaultedCopyConstructorIsDeleted()) copyable = true;
         if (RD->needsImplicitMoveConstructor() and !RD->defaultedMoveConstructorIsDeleted()) movable = true;
         o["copy_constructible"] = copyable;
         o["move_constructible"] = movable;
      }
      json::Array bases;
      for (auto& B : RD->bases()) {
         json::Object b;
         if (auto BR = B.getType()->getAsCXXRecordDecl()) b["name"] = recName(BR);
         else b["name"] = typeStr(B.getType());
         b["virtual"] = B.isVirtual();
         b["access"] = accessStr(B.getAccessSpecifier());
         b["repo"] = B.getType()->getAsCXXRecordDecl() ? inRepoLoc(B.getType()->getAsCXXRecordDecl()->getLocation()) : false;
         bases.push_back(std::move(b));
      }
      o["bases"] = std::move(bases);
      json::Array fields;
      for (auto F : RD->fields()) {
         json::Object f;
         f["name"] = F->getNameAsString();
         f["t"] = typeStr(F->getType());
         f["mutable"] = F->isMutable();
         f["access"] = accessStr(F->getAccess());
         f["ref"] = F->getType()->isReferenceType();
         f["const"] = F->getType().isConstQualified();
         f["ln"] = (int64_t)lineOf(F->getLocation());
         if (F->isBitField() and !F->getBitWidth()->isValueDependent()) {
            f["bits"] = (int64_t)F->getBitWidthValue(*C.AC);
            f["signed"] = F->getType()->isSignedIntegerOrEnumerationType();
         }
         if (F->hasInClassInitializer() and F->getInClassInitializer()) {
            BodyWriter W(nullptr_fn());
            f["init"] = W.X(F->getInClassInitializer());
         }
         fields.push_back(std::move(f));
      }
      o["fields"] = std::move(fields);
      json::Array statics;
      for (auto D : RD->decls())
         if (auto V = dyn_cast<VarDecl>(D)) {
            json::Object s;
            s["name"] = V->getNameAsString();
            s["t"] = typeStr(V->getType());
            s["constexpr"] = V->isConstexpr();
            statics.push_back(std::move(s));
         }
      o["static_members"] = std::move(statics);
      // using-declarations: names of a base class made visible again next to members that would hide them
      json::Array usings;
      for (auto D : RD->decls())
         if (auto U = dyn_cast<UsingDecl>(D)) {
            json::Object u;
            u["name"] = U->getNameAsString();
            std::string from;
            if (auto Q = U->getQualifier())
               if (auto T = Q->getAsType()) from = typeStr(QualType(T, 0));
            u["from"] = from;
            usings.push_back(std::move(u));
         }
      o["usings"] = std::move(usings);
      // member function templates (not instantiated unless used, so they do not show up among the methods)
      json::Array mtemps;
      for (auto D : RD->decls())
         if (auto FT = dyn_cast<FunctionTemplateDecl>(D)) {
            json::Object t;
            t["name"] = FT->getNameAsString();
            t["ln"] = (int64_t)lineOf(FT->getLocation());
            if (auto M = dyn_cast_or_null<CXXMethodDecl>(FT->getTemplatedDecl())) {
               t["const"] = M->isConst();
               t["static"] = M->isStatic();
               t["nparams"] = (int64_t)M->getNumParams();
            }
            mtemps.push_back(std::move(t));
         }
      o["method_templates"] = std::move(mtemps);
      json::Array methods;
      for (auto M : RD->methods()) {
         json::Object m;
         m["id"] = fnId(M);
         m["name"] = M->getNameAsString();
         m["const"] = M->isConst();
         m["virtual"] = M->isVirtual();
         m["pure"] = M->isPure();
         m["final"] = M->hasAttr<FinalAttr>();
         m["static"] = M->isStatic();
         m["defaulted"] = M->isDefaulted();
         m["deleted"] = M->isDeleted();
         m["implicit"] = M->isImplicit();
         m["user_provided"] = M->isUserProvided();
         m["access"] = accessStr(M->getAccess());
         m["ret"] = typeStr(M->getReturnType());
         m["ln"] = (int64_t)lineOf(M->getLocation());
         if (isa<CXXConstructorDecl>(M)) m["ctor"] = true;
         if (isa<CXXDestructorDecl>(M)) m["dtor"] = true;
         if (isa<CXXConversionDecl>(M)) m["conv"] = true;
         json::Array params;
         for (auto P : M->parameters()) params.push_back(typeStr(P->getType()));
         m["params"] = std::move(params);
         json::Array ov;
         for (auto O : M->overridden_methods()) ov.push_back(fnId(O));
         m["overrides"] = std::move(ov);
         methods.push_back(std::move(m));
      }
      o["methods"] = std::move(methods);
      // member function templates (names only; their specialisations show up as functions)
      if (RD->isPolymorphic()) {
         CXXFinalOverriderMap FOM;
         RD->getFinalOverriders(FOM);
         json::Array fo;
         for (auto& P : FOM) {
            const CXXMethodDecl* Base = P.first;
            for (auto& Sub : P.second) {
               for (auto& U : Sub.second) {
                  json::Object e;
                  e["method"] = fnId(Base);
                  e["name"] = Base->getNameAsString();
                  e["overrider"] = fnId(U.Method);
                  e["in"] = recName(U.Method->getParent());
                  e["pure"] = U.Method->isPure();
                  fo.push_back(std::move(e));
               }
            }
         }
         o["final_overriders"] = std::move(fo);
      }
      records.push_back(std::move(o));
      return true;
   }

   void constructFact(FunctionDecl* FD)
   {
      // std::construct_at<T, Args...> / std::_Construct<T, Args...> /
      // allocator_traits::construct: which repository constructor runs inside?
      std::string n = FD->getNameAsString();
      if (n != "construct_at" and n != "_Construct" and n != "construct") return;
      FindNew F;
      F.TraverseStmt(FD->getBody());
      if (F.T.isNull()) return;
      auto RD = F.T->getAsCXXRecordDecl();
      if (!RD or !inRepoLoc(RD->getLocation())) return;
      json::Object o;
      o["fn"] = fnQName(FD);
      o["name"] = n;
      o["cls"] = recName(RD);
      if (auto Args = FD->getTemplateSpecializationArgs()) o["targs"] = targsArr(Args->asArray());
      json::Array params;
      for (auto P : FD->parameters()) params.push_back(typeStr(P->getType()));
      o["params"] = std::move(params);
      if (F.Ctor) {
         o["ctor"] = fnId(F.Ctor);
         if (F.Ctor->isCopyOrMoveConstructor()) o["copy"] = true;
      }
      if (F.aggregate) o["aggregate"] = true;
      constructs.push_back(std::move(o));
   }

   bool VisitFunctionDecl(FunctionDecl* FD)
   {
      if (!FD->doesThisDeclarationHaveABody()) return true;
      if (FD->isDependentContext()) return true;
      if (!inRepoLoc(FD->getLocation())) {
         constructFact(FD);
         return true;
      }
      std::string id = fnId(FD);
      if (!seenFn.insert(id).second) return true;
      json::Object o;
      o["id"] = id;
      o["name"] = FD->getNameAsString();
      o["q"] = fnQName(FD);
      o["loc"] = locStr(FD->getLocation());
      o["endline"] = (int64_t)lineOf(FD->getEndLoc());
      o["ret"] = typeStr(FD->getReturnType());
      o["implicit"] = FD->isImplicit();
      o["defaulted"] = FD->isDefaulted();
      // written noexcept / noexcept(true) / throw(): an exception that reaches the function's boundary ends the program
      if (auto FPT = FD->getType()->getAs<FunctionProtoType>()) {
         auto EST = FPT->getExceptionSpecType();
         if (!FD->isImplicit() and !isa<CXXDestructorDecl>(FD)
             and (EST == EST_BasicNoexcept or EST == EST_NoexceptTrue or EST == EST_DynamicNone or EST == EST_NoThrow))
            o["noexcept"] = true;
      }
      o["constexpr"] = FD->isConstexpr();
      o["consteval"] = FD->isConsteval();
      o["inline"] = FD->isInlined();
      o["variadic"] = FD->isVariadic();
      if (FD->isTemplateInstantiation()) {
         o["instantiation"] = true;
         if (auto Pat = FD->getTemplateInstantiationPattern()) o["pattern_loc"] = locStr(Pat->getLocation());
      }
      if (auto Args = FD->getTemplateSpecializationArgs()) o["targs"] = targsArr(Args->asArray());
      BodyWriter W(FD);
      json::Array params;
      for (auto P : FD->parameters()) {
         json::Object p;
         p["name"] = P->getNameAsString();
         p["t"] = typeStr(P->getType());
         if (P->hasDefaultArg() and !P->hasUninstantiatedDefaultArg() and !P->hasUnparsedDefaultArg()) {
            p["default"] = true;
            if (P->getDefaultArg()) p["defarg"] = W.X(P->getDefaultArg());
         }
         params.push_back(std::move(p));
      }
      o["params"] = std::move(params);
      if (auto MD = dyn_cast<CXXMethodDecl>(FD)) {
         o["parent"] = recName(MD->getParent());
         if (auto S = dyn_cast<ClassTemplateSpecializationDecl>(MD->getParent()))
            o["ptargs"] = targsArr(S->getTemplateArgs().asArray());
         o["const"] = MD->isConst();
         o["virtual"] = MD->isVirtual();
         o["static"] = MD->isStatic();
         o["final"] = MD->hasAttr<FinalAttr>();
         json::Array ov;
         for (auto O : MD->overridden_methods()) ov.push_back(fnId(O));
         o["overrides"] = std::move(ov);
         if (MD->getParent()->isLambda()) o["lambda_call"] = true;
         if (auto CD = dyn_cast<CXXConstructorDecl>(FD)) {
            o["ctor"] = true;
            if (CD->isCopyOrMoveConstructor()) o["copy"] = true;
            if (CD->isInheritingConstructor()) o["inheriting"] = true;
            json::Array inits;
            for (auto I : CD->inits()) {
               json::Object i;
               if (I->isBaseInitializer()) {
                  i["kind"] = "base";
                  if (auto BR = I->getBaseClass()->getAsCXXRecordDecl()) i["name"] = recName(BR);
                  else i["name"] = typeStr(QualType(I->getBaseClass(), 0));
               }
               else if (I->isDelegatingInitializer()) i["kind"] = "delegating";
               else if (I->isAnyMemberInitializer()) {
                  i["kind"] = "member";
                  i["name"] = I->getAnyMember()->getNameAsString();
               }
               i["written"] = I->isWritten();
               i["e"] = W.X(I->getInit());
               inits.push_back(std::move(i));
            }
            o["inits"] = std::move(inits);
         }
         if (isa<CXXDestructorDecl>(FD)) o["dtor"] = true;
      }
      else {
         o["static"] = FD->getStorageClass() == SC_Static;
      }
      o["body"] = W.X(FD->getBody());
      o["nvars"] = W.nextVar;
      functions.push_back(std::move(o));
      return true;
   }
};

struct Consumer : ASTConsumer {
   std::string mainFile;
   void HandleTranslationUnit(ASTContext& AC) override
   {
      C.AC = &AC;
      C.SM = &AC.getSourceManager();
      C.PP = PrintingPolicy(AC.getLangOpts());
      C.PP.SuppressTagKeyword = true;
      C.PP.AnonymousTagLocations = false;
      C.PP.Bool = true;
      C.PP.SuppressUnwrittenScope = false;
      C.PP.SuppressInlineNamespace = true;
      C.PP.FullyQualifiedName = true;
      C.PP.PrintCanonicalTypes = true;
      C.root = RootOpt;
      while (!C.root.empty() and C.root.back() == '/') C.root.pop_back();

      if (AC.getDiagnostics().hasErrorOccurred()) {
         llvm::errs() << "iprscan: errors while parsing; no facts written\n";
         return;
      }
      LambdaNamer LN;
      LN.TraverseDecl(AC.getTranslationUnitDecl());
      Scanner S;
      S.TraverseDecl(AC.getTranslationUnitDecl());

      json::Object top;
      auto FE = C.SM->getFileEntryForID(C.SM->getMainFileID());
      top["unit"] = FE ? FE->getName().str() : "";
      top["records"] = std::move(S.records);
      top["functions"] = std::move(S.functions);
      top["globals"] = std::move(S.globals);
      top["enums"] = std::move(S.enums);
      top["constructs"] = std::move(S.constructs);
      std::error_code EC;
      llvm::raw_fd_ostream os(OutOpt, EC);
      if (EC) { llvm::errs() << "iprscan: cannot write " << OutOpt << "\n"; return; }
      os << json::Value(std::move(top)) << "\n";
   }
};

struct Action : ASTFrontendAction {
   std::unique_ptr<ASTConsumer> CreateASTConsumer(CompilerInstance&, llvm::StringRef) override
   {
      return std::make_unique<Consumer>();
   }
};

} // namespace

int main(int argc, const char** argv)
{
   auto Opts = tooling::CommonOptionsParser::create(argc, argv, Cat);
   if (!Opts) { llvm::errs() << llvm::toString(Opts.takeError()) << "\n"; return 2; }
   tooling::ClangTool Tool(Opts->getCompilations(), Opts->getSourcePathList());
   int r = Tool.run(tooling::newFrontendActionFactory<Action>().get());
   return r == 0 ? 0 : 2;
}
