#!/bin/sh
# setup_cmd: builds the LibTooling fact extractor from files on disk only (offline).
set -e
cd "$(dirname "$0")"
mkdir -p ../bin
if [ ! -x ../bin/iprscan ] || [ iprscan.cc -nt ../bin/iprscan ]; then
  clang++ $(llvm-config-14 --cxxflags) -std=c++17 -O1 -fno-rtti iprscan.cc -o ../bin/iprscan \
     /usr/lib/llvm-14/lib/libclang-cpp.so.14 /usr/lib/llvm-14/lib/libLLVM-14.so
fi
echo "iprscan built: $(ls -la ../bin/iprscan)"
