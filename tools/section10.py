#!/usr/bin/env python3
"""Regenerate the two tables of DESIGN.md section 10 (between the S10 markers) from seeded/*/meta.json and refactorings/*/meta.json."""
import json, glob, os
V = os.path.dirname(os.path.dirname(os.path.abspath(__file__)))
rows = []
for d in sorted(glob.glob(os.path.join(V, 'seeded/*/meta.json'))):
    m = json.load(open(d)); name = os.path.basename(os.path.dirname(d))
    what = m['what_it_needs_to_manifest'].strip().split('\n')[0][:150].replace('|', '/')
    tgt = [x for x in m['detected_by'] if x['property'] == m['breaks_property']]
    oth = [x for x in m['detected_by'] if x['property'] != m['breaks_property']]
    rows.append(f"| {name} | {what} | {', '.join(sorted(set(r for x in tgt for r in x['rules']))) or '**not caught**'} | {', '.join(sorted(set(r for x in oth for r in x['rules']))) or '-'} |")
rrows = []
for d in sorted(glob.glob(os.path.join(V, 'refactorings/*/meta.json'))):
    m = json.load(open(d)); name = os.path.basename(os.path.dirname(d))
    rd = open(os.path.dirname(d) + '/README.txt').read().strip().split('\n')[0][:150].replace('|', '/')
    rrows.append(f"| {name} | {rd} | {', '.join(m['formerly_alarmed']) or '-'} |")
p = os.path.join(V, 'DESIGN.md')
s = open(p).read()
for tag, body in (('S10A', rows), ('S10B', rrows)):
    a, b = f'<!-- {tag}:BEGIN -->', f'<!-- {tag}:END -->'
    if a in s:
        s = s[:s.index(a) + len(a)] + '\n' + '\n'.join(body) + '\n' + s[s.index(b):]
open(p, 'w').write(s)
print(len(rows), 'seeded,', len(rrows), 'refactorings')
