#!/usr/bin/env python3
"""Maintainer tool: re-run every check against every stored regression (scratch copies, no rebuild of the demonstrations, which
were confirmed when the regression was stored) and refresh `detected_by` / `analysis_broken` / `caught_by_target_check` in meta.json.
usage: tools/refresh_seed_meta.py [name ...]"""
import json, os, shutil, subprocess, sys, tempfile
from concurrent.futures import ThreadPoolExecutor
V = os.path.dirname(os.path.dirname(os.path.abspath(__file__)))
PIDS = [c['property_id'] for c in json.load(open(os.path.join(V, 'MANIFEST.json')))['checks']]


def one(name):
    d = os.path.join(V, 'seeded', name)
    t = tempfile.mkdtemp(prefix='seedref-')
    try:
        repo = os.path.join(t, 'repo')
        os.makedirs(repo)
        for sub in ('include', 'src'):
            shutil.copytree(os.path.join('/repo', sub), os.path.join(repo, sub))
        shutil.copy('/repo/CMakeLists.txt', repo)
        p = subprocess.run(['patch', '-p1', '-s', '-d', repo, '-i', os.path.join(d, 'patch.diff')], capture_output=True, text=True)
        if p.returncode:
            return name, None
        env = dict(os.environ, IPR_REPO=repo, VERIF_EVIDENCE_DIR=t + '/ev', VERIF_CACHE_DIR=t + '/cache', VERIF_CONTROL='1')
        det, broken = [], []
        for pid in PIDS:
            r = subprocess.run([sys.executable, os.path.join(V, 'check'), pid, '--tier', 'quick'], capture_output=True, text=True, env=env, cwd=V)
            if r.returncode == 1:
                rules = sorted({l.split('rule=')[1].split(' ')[0] for l in r.stdout.splitlines() if 'violated: rule=' in l})
                first = [l.strip()[:300] for l in r.stdout.splitlines() if 'violated: rule=' in l][:2]
                det.append({'property': pid, 'rules': rules, 'rule': rules[0] if rules else pid, 'reports': first})
            elif r.returncode == 2:
                last = r.stdout.strip().splitlines()[-1][:300] if r.stdout.strip() else ''
                broken.append({'property': pid, 'rules': [], 'rule': None, 'exit2': last})
        m = json.load(open(os.path.join(d, 'meta.json')))
        m['detected_by'], m['analysis_broken'] = det, broken
        m['caught_by_target_check'] = any(x['property'] == m['breaks_property'] for x in det)
        json.dump(m, open(os.path.join(d, 'meta.json'), 'w'), indent=1)
        return name, m['caught_by_target_check']
    finally:
        shutil.rmtree(t, ignore_errors=True)


names = sys.argv[1:] or sorted(x for x in os.listdir(os.path.join(V, 'seeded')) if os.path.exists(os.path.join(V, 'seeded', x, 'meta.json')))
missed = []
with ThreadPoolExecutor(8) as ex:
    for name, ok in ex.map(one, names):
        if not ok:
            missed.append(name)
            print(name, 'NOT CAUGHT by its target check' if ok is False else 'patch does not apply', flush=True)
print(f'{len(names)} regressions, {len(missed)} not caught by the target check: {missed}')
sys.exit(1 if missed else 0)
