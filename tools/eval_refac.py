#!/usr/bin/env python3
"""Maintainer tool (not a check): false-alarm test.  A behaviour-preserving change (patch.diff) is applied to a fresh
scratch worktree of /repo under /tmp, the library and its tests are built and run there, and every check is run
against that tree (IPR_REPO=<worktree>): every check must exit 0.
usage: tools/eval_refac.py <dir with patch.diff> <name>"""
import json, os, shutil, subprocess, sys, tempfile
from concurrent.futures import ThreadPoolExecutor

VERIF = os.path.dirname(os.path.dirname(os.path.abspath(__file__)))


def sh(cmd, cwd=None, timeout=1800):
    p = subprocess.run(cmd, shell=True, cwd=cwd, stdout=subprocess.PIPE, stderr=subprocess.STDOUT, text=True, timeout=timeout)
    return p.returncode, p.stdout


def main():
    src, name = sys.argv[1], sys.argv[2]
    patch = os.path.join(src, 'patch.diff')
    wt = tempfile.mkdtemp(prefix='refwt-')
    os.rmdir(wt)
    scratch = tempfile.mkdtemp(prefix='refev-')
    res = {'name': name}
    try:
        rc, out = sh(f'git -C /repo worktree add -q --detach {wt} HEAD')
        if rc:
            print(out)
            return 2
        rc, out = sh(f'git apply {patch}', cwd=wt)
        if rc:
            res['error'] = 'patch does not apply: ' + out[-200:]
            print(json.dumps(res))
            return 1
        if '--no-build' not in sys.argv:
            rc, out = sh('cmake -G Ninja -S . -B _build >/dev/null && cmake --build _build 2>&1 | tail -3 && ./_build/tests/unit-tests/unittests | tail -3', cwd=wt)
            res['tests'] = 'pass' if '17 passed' in out else 'FAIL: ' + out[-300:]
            sh('rm -rf _build', cwd=wt)
        env = f'IPR_REPO={wt} VERIF_EVIDENCE_DIR={scratch}/ev VERIF_CACHE_DIR={scratch}/cache VERIF_CONTROL=1'
        m = json.load(open(os.path.join(VERIF, 'MANIFEST.json')))
        pids = [c['property_id'] for c in m['checks']]

        def one(p):
            return p, sh(f'{env} ./check {p} --tier quick', cwd=VERIF, timeout=3600)
        results = [one(pids[0])] + list(ThreadPoolExecutor(8).map(one, pids[1:]))
        alarms = []
        for p, (rc, out) in results:
            if rc != 0:
                lines = [l.strip()[:400] for l in out.splitlines() if 'violated: rule=' in l or 'BROKEN' in l][:4]
                alarms.append({'property': p, 'exit': rc, 'lines': lines})
        res['alarms'] = alarms
    finally:
        sh(f'git -C /repo worktree remove --force {wt}')
        shutil.rmtree(scratch, ignore_errors=True)
    print(json.dumps(res, indent=1))
    return 0 if not res.get('alarms') and res.get('tests', 'pass') == 'pass' else 1


sys.exit(main())
