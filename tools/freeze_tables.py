#!/usr/bin/env python3
"""Maintainer tool (never run by a check): regenerate the frozen oracle tables from the current tree,
to be *reviewed by reading* before they are committed.  usage: tools/freeze_tables.py contracts"""
import json, os, sys
HERE = os.path.dirname(os.path.dirname(os.path.abspath(__file__)))
sys.path.insert(0, os.path.join(HERE, 'lib'))
import facts, wire

def main():
    F = facts.load()
    what = sys.argv[1] if len(sys.argv) > 1 else 'contracts'
    if what == 'contracts':
        table = wire.compute(F)
        with open(os.path.join(HERE, 'tables', 'factory_contract.json'), 'w') as fh:
            json.dump({'comment': 'confirmed by reading against include/ipr/interface and doc/*.tex; regenerate only with review',
                       'contracts': table}, fh, indent=1, sort_keys=True)
        print(len(table), 'contracts frozen')

main()
