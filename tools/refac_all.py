#!/usr/bin/env python3
"""Maintainer tool: every stored behaviour-preserving change (refactorings/*) x every check must give exit 0.
usage: tools/refac_all.py [name ...]      (default: all).  Scratch copies under /tmp, removed afterwards."""
import json, os, shutil, subprocess, sys, tempfile
from concurrent.futures import ThreadPoolExecutor
V = os.path.dirname(os.path.dirname(os.path.abspath(__file__)))
PIDS = [c['property_id'] for c in json.load(open(os.path.join(V, 'MANIFEST.json')))['checks']]


def one(name):
    t = tempfile.mkdtemp(prefix='refall-')
    try:
        repo = os.path.join(t, 'repo')
        os.makedirs(repo)
        for sub in ('include', 'src'):
            shutil.copytree(os.path.join('/repo', sub), os.path.join(repo, sub))
        shutil.copy('/repo/CMakeLists.txt', repo)
        p = subprocess.run(['patch', '-p1', '-s', '-d', repo, '-i', os.path.join(V, 'refactorings', name, 'patch.diff')], capture_output=True, text=True)
        if p.returncode:
            return name, [('patch', 3, p.stdout[-200:])]
        env = dict(os.environ, IPR_REPO=repo, VERIF_EVIDENCE_DIR=t + '/ev', VERIF_CACHE_DIR=t + '/cache', VERIF_CONTROL='1')
        bad = []
        for pid in PIDS:
            r = subprocess.run([sys.executable, os.path.join(V, 'check'), pid, '--tier', 'quick'], capture_output=True, text=True, env=env, cwd=V)
            if r.returncode != 0:
                lines = [l.strip()[:300] for l in r.stdout.splitlines() if 'violated: rule=' in l or 'BROKEN' in l][:2]
                bad.append((pid, r.returncode, lines))
        return name, bad
    finally:
        shutil.rmtree(t, ignore_errors=True)


names = sys.argv[1:] or sorted(d for d in os.listdir(os.path.join(V, 'refactorings')) if os.path.exists(os.path.join(V, 'refactorings', d, 'patch.diff')))
nbad = 0
with ThreadPoolExecutor(8) as ex:
    for name, bad in ex.map(one, names):
        if bad:
            nbad += 1
            print(name, 'ALARM', bad, flush=True)
print(f'{len(names)} changes, {nbad} with an alarm')
sys.exit(1 if nbad else 0)
