#!/bin/bash
# maintainer tool: apply a stored patch (seeded/<id> or refactorings/<id> or a path) to a scratch copy of /repo and run checks against it
# usage: tools/tryseed.sh <seeded/C03-3 | path/to/patch.diff> C03 [C19 ...]
cd "$(dirname "$0")/.."
p=$1; shift
[ -f "$p" ] || p="$p/patch.diff"
t=$(mktemp -d /tmp/tryseed-XXXXXX)
mkdir -p $t/repo && cp -r /repo/include /repo/src /repo/CMakeLists.txt $t/repo/
patch -p1 -s -d $t/repo -i "$(realpath $p)" || { echo "patch failed"; rm -rf $t; exit 3; }
for c in "$@"; do
  IPR_REPO=$t/repo VERIF_EVIDENCE_DIR=$t/ev VERIF_CACHE_DIR=$t/cache VERIF_CONTROL=1 ./check $c --tier quick > $t/out-$c.log 2>&1
  rc=$?
  echo "== $c rc=$rc"
  grep -E "violated: rule=|BROKEN|Traceback|Error" $t/out-$c.log | cut -c1-${WIDTH:-700} | head -${LINES_MAX:-6}
  [ -n "$FULL" ] && cat $t/out-$c.log
done
rm -rf $t
