#!/usr/bin/env python3
"""Maintainer tool: apply textual edits (JSON list of {file, old, new}) to a scratch copy of /repo, check that the
library still compiles (g++ -fsyntax-only on the units), run the given checks (default: all) against the copy.
usage: tools/tryedit.py edits.json [C01 C02 ...]"""
import json, os, shutil, subprocess, sys, tempfile
from concurrent.futures import ThreadPoolExecutor
V = os.path.dirname(os.path.dirname(os.path.abspath(__file__)))
edits = json.load(open(sys.argv[1]))
pids = sys.argv[2:] or [c['property_id'] for c in json.load(open(os.path.join(V, 'MANIFEST.json')))['checks']]
tmp = tempfile.mkdtemp(prefix='tryedit-')
try:
    repo = os.path.join(tmp, 'repo')
    os.makedirs(repo)
    for sub in ('include', 'src', 'tests', '3rdparty', 'cmake'):
        if os.path.isdir('/repo/' + sub):
            shutil.copytree('/repo/' + sub, os.path.join(repo, sub))
    shutil.copy('/repo/CMakeLists.txt', repo)
    for e in edits:
        p = os.path.join(repo, e['file'])
        s = open(p, encoding='utf-8', errors='replace').read()
        if s.count(e['old']) != 1:
            print('edit site found', s.count(e['old']), 'times:', e['old'][:60]); sys.exit(2)
        open(p, 'w', encoding='utf-8').write(s.replace(e['old'], e['new']))
    units = [f for f in os.listdir(os.path.join(repo, 'src')) if f.endswith('.cxx')]
    for u in units:
        r = subprocess.run(['g++', '-std=c++20', '-fsyntax-only', '-I', os.path.join(repo, 'include'), os.path.join(repo, 'src', u)],
                           stdout=subprocess.PIPE, stderr=subprocess.STDOUT, text=True)
        if r.returncode:
            print('does not compile:', r.stdout[-800:]); sys.exit(2)
    if '--test' in os.environ.get('TRYEDIT', ''):
        r = subprocess.run(f'cd {repo} && g++ -std=c++20 -O0 -I include -I tests -I 3rdparty/doctest tests/unit-tests/*.cxx src/*.cxx -o ut 2>&1 | tail -5 && ./ut | tail -3', shell=True, stdout=subprocess.PIPE, stderr=subprocess.STDOUT, text=True)
        print(r.stdout[-600:])
    env = dict(os.environ, IPR_REPO=repo, VERIF_EVIDENCE_DIR=os.path.join(tmp, 'ev'), VERIF_CACHE_DIR=os.path.join(tmp, 'cache'), VERIF_CONTROL='1')

    def one(p):
        r = subprocess.run([sys.executable, os.path.join(V, 'check'), p, '--tier', 'quick'], stdout=subprocess.PIPE, stderr=subprocess.STDOUT, text=True, env=env, cwd=V)
        return p, r.returncode, r.stdout
    res = [one(pids[0])] + list(ThreadPoolExecutor(8).map(one, pids[1:]))
    bad = 0
    for p, rc, out in res:
        if rc:
            bad += 1
            print(f'{p} exit {rc}')
            for l in out.splitlines():
                if 'violated: rule=' in l or 'BROKEN' in l:
                    print('   ', l.strip()[:420])
    print('all quiet' if not bad else f'{bad} check(s) not quiet')
finally:
    shutil.rmtree(tmp, ignore_errors=True)
