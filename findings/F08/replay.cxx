// F8 / F8b (C18): unbounded recursion (a) for expression kinds no printer level handles, through the
// parenthesise-and-redispatch fallback, and (b) for composite types named by their own Type_id.
// Run with an argument: 1 = Demotion expression, 2 = decltype(nullptr), 3 = auto.
#include <ipr/impl>
#include <ipr/io>
#include <sstream>
#include <cstdio>
#include <cstdlib>
int main(int argc, char** argv) {
   using namespace ipr;
   impl::Lexicon lex;
   std::ostringstream os;
   Printer pp{lex, os};
   int what = argc > 1 ? std::atoi(argv[1]) : 1;
   try {
      if (what == 1) pp << xpr_expr(*lex.make_demotion(*lex.make_literal(lex.int_type(), u8"1"), lex.long_type()));
      if (what == 2) pp << xpr_type(lex.nullptr_value().type());
      if (what == 3) pp << xpr_type(lex.get_auto());
      std::printf("completed: %s\n", os.str().c_str());
   } catch (const std::logic_error& e) {
      std::printf("refused with logic_error: %s\n", e.what());
   }
   return 0;
}
