// F2 (C16): Elementary_substitution::operator[] answers the parameter for the bound parameter and the
// bound value for every other parameter (both branches reversed).
#include <ipr/impl>
#include <cstdio>
int main() {
   using namespace ipr;
   impl::Lexicon lex;
   impl::Translation_unit unit{lex};
   auto* m = lex.make_mapping(*unit.global_region());
   auto* p = m->param(lex.get_identifier(u8"p"), lex.int_type());
   auto* q = m->param(lex.get_identifier(u8"q"), lex.int_type());
   auto& v = *lex.make_literal(lex.int_type(), u8"42");
   auto* s = lex.make_elementary_substitution(*p, v);
   bool bound = &(*s)[*p] == static_cast<const Expr*>(&v);
   bool other = &(*s)[*q] == static_cast<const Expr*>(q);
   std::printf("[p->42](p) is 42: %s;  [p->42](q) is q: %s\n", bound ? "yes" : "NO", other ? "yes" : "NO");
   return !(bound and other);
}
