// F9 (C12): the block that is a handler's body (second implementation of ipr::Block) never names itself
// as the owner of its region, unlike impl::Block.
#include <ipr/impl>
#include <cstdio>
int main() {
   using namespace ipr;
   impl::Lexicon lex;
   impl::Translation_unit unit{lex};
   auto* b = lex.make_block(*unit.global_region());
   auto* h = b->new_handler(lex.get_identifier(u8"e"), lex.int_type());
   const ipr::Block& body = static_cast<const ipr::Handler&>(*h).body();
   auto owner = body.region().owner();
   bool ok = owner.is_valid() and &owner.get() == static_cast<const ipr::Expr*>(&body);
   std::printf("owner of the guarded block's region is the block: %s; owner of the handler body's region is that body: %s\n",
               (b->region().owner().is_valid() ? "yes" : "NO"), ok ? "yes" : "NO");
   return !ok;
}
