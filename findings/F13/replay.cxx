#include <ipr/impl>
#include <ipr/io>
#include <iostream>
int main() {
   using namespace ipr;
   impl::Lexicon lexicon;
   impl::Module m{lexicon};
   impl::Interface_unit unit{lexicon, m};
   impl::Scope* scope = unit.global_scope();
   auto& name = lexicon.get_identifier(u8"alias_name");
   auto& other = lexicon.get_identifier(u8"something");
   // an initializer that has no type yet
   auto* init = lexicon.make_id_expr(other);
   bool before = static_cast<const ipr::Scope&>(*scope)[name].is_valid();
   bool threw = false;
   try { scope->make_alias(name, *init); } catch (const std::logic_error&) { threw = true; }
   bool after = static_cast<const ipr::Scope&>(*scope)[name].is_valid();
   std::cout << "before=" << before << " threw=" << threw << " after=" << after << " elements=" << scope->elements().size() << "\n";
   return (threw && after && !before) ? 1 : 0;
}
