// F1 (C15): Block::try_block() is true exactly when the block has NO handlers.
#include <ipr/impl>
#include <cstdio>
int main() {
   using namespace ipr;
   impl::Lexicon lex;
   impl::Translation_unit unit{lex};
   auto* plain = lex.make_block(*unit.global_region());
   auto* tried = lex.make_block(*unit.global_region());
   tried->new_handler(lex.get_identifier(u8"e"), lex.int_type());
   std::printf("plain block: try_block()=%d (expected 0); block with a handler: try_block()=%d (expected 1)\n",
               plain->try_block(), tried->try_block());
   return !(plain->try_block() == false and tried->try_block() == true);
}
