// F3 (C11): qualifying an already-qualified type nests Qualified nodes instead of merging the qualifiers.
#include <ipr/impl>
#include <cstdio>
int main() {
   using namespace ipr;
   impl::Lexicon lex;
   auto c = lex.const_qualifier(), v = lex.volatile_qualifier();
   auto& cv1 = lex.get_qualified(v, lex.get_qualified(c, lex.int_type()));
   auto& cv2 = lex.get_qualified(c, lex.get_qualified(v, lex.int_type()));
   auto& cv3 = lex.get_qualified(c | v, lex.int_type());
   bool flat = util::view<Qualified>(cv1.main_variant()) == nullptr;
   bool same = &cv1 == &cv2 and &cv2 == &cv3;
   std::printf("main variant of volatile(const int) is unqualified: %s; all groupings give one node: %s\n",
               flat ? "yes" : "NO", same ? "yes" : "NO");
   return !(flat and same);
}
