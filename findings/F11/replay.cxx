// F11 (C01, C04, C07): the comparator overload selected for (stored element, key) compares the stored
// node's own address with the key, so these constructors never unify and scope lookup by name fails.
#include <ipr/impl>
#include <cstdio>
int main() {
   using namespace ipr;
   impl::Lexicon lex;
   impl::Translation_unit unit{lex};
   int bad = 0;
   auto& id = lex.get_identifier(u8"x");
   auto report = [&](const char* what, bool same) { std::printf("%-28s %s\n", what, same ? "unified" : "NOT unified"); bad += !same; };
   report("get_as_type(expr)", &lex.get_as_type(static_cast<const Expr&>(lex.int_type())) == &lex.get_as_type(static_cast<const Expr&>(lex.int_type())));
   report("get_as_type(identifier)", &lex.get_as_type(id) == &lex.get_as_type(id));
   report("get_operator", &lex.get_operator(u8"+") == &lex.get_operator(u8"+"));
   report("get_suffix", &lex.get_suffix(id) == &lex.get_suffix(id));
   report("get_conversion", &lex.get_conversion(lex.int_type()) == &lex.get_conversion(lex.int_type()));
   report("get_ctor_name", &lex.get_ctor_name(lex.int_type()) == &lex.get_ctor_name(lex.int_type()));
   report("get_dtor_name", &lex.get_dtor_name(lex.int_type()) == &lex.get_dtor_name(lex.int_type()));
   auto* v1 = unit.global_scope()->make_var(id, lex.int_type());
   auto* v2 = unit.global_scope()->make_var(id, lex.int_type());
   report("scope lookup by name", (*unit.global_scope())[id].is_valid());
   report("redeclaration grouped", v1->decl_set().size() == 2 and v2->decl_set().size() == 2);
   return bad != 0;
}
