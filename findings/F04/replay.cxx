// F4 (C04, C13): the Identifier obtained for a reserved spelling is a second node, not the one naming
// the built-in; get_as_type(identifier) and get_label(identifier) therefore miss the constants.
#include <ipr/impl>
#include <cstdio>
int main() {
   using namespace ipr;
   impl::Lexicon lex;
   int bad = 0;
   auto& id = lex.get_identifier(u8"int");
   bool same = &id == &lex.int_type().name();
   std::printf("get_identifier(\"int\") is int_type().name(): %s\n", same ? "yes" : "NO"); bad += !same;
   bool t = &lex.get_as_type(id) == &lex.int_type();
   std::printf("get_as_type(identifier int) is int_type(): %s\n", t ? "yes" : "NO"); bad += !t;
   bool l = &lex.get_label(lex.get_identifier(u8"default")) == &lex.default_value();
   std::printf("get_label(identifier default) is default_value(): %s\n", l ? "yes" : "NO"); bad += !l;
   return bad != 0;
}
