// F12 (C19): rb_tree::container has no destructor: every unified node (types, names, literals, ...) leaks
// when its Lexicon is destroyed, and the payload destructors never run.  Run under valgrind --leak-check=full.
#include <ipr/impl>
int main() {
   for (int i = 0; i < 3; ++i) {
      ipr::impl::Lexicon lex;
      auto& p = lex.get_pointer(lex.int_type());
      lex.get_reference(p);
      lex.get_identifier(u8"leaky");
   }
}
