// F5 (C06): a Parameter_list is an Expr (Category<Parameter_list, Expr>) but its default hook
// hands it to visit(const Node&), skipping visit(const Expr&).
#include <ipr/impl>
#include <cstdio>
struct V : ipr::Constant_visitor<ipr::No_op> {
   const char* sink = "none";
   void visit(const ipr::Node&) override { sink = "Node"; }
   void visit(const ipr::Expr&) override { sink = "Expr"; }
};
int main() {
   ipr::impl::Lexicon lex;
   ipr::impl::Translation_unit unit{lex};
   auto* m = lex.make_mapping(*unit.global_region());
   const ipr::Parameter_list& pl = m->parameters();
   V v; pl.accept(v);
   std::printf("Parameter_list default hook reached the %s sink (expected Expr)\n", v.sink);
   return std::string_view(v.sink) == "Expr" ? 0 : 1;
}
