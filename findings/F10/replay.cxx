// F10 (C07): the master back-pointer read by Decl::master() is never written.
#include <ipr/impl>
#include <cstdio>
int main() {
   using namespace ipr;
   impl::Lexicon lex;
   impl::Translation_unit unit{lex};
   auto* v = unit.global_scope()->make_var(lex.get_identifier(u8"x"), lex.int_type());
   try {
      bool self = &v->master() == v;
      std::printf("master() of a first declaration is itself: %s\n", self ? "yes" : "NO");
      return !self;
   } catch (const std::logic_error& e) {
      std::printf("master() throws: %s\n", e.what());
      return 1;
   }
}
