// F7 (C18): an Enclosure with Delimiter::Nothing writes two NUL bytes.
#include <ipr/impl>
#include <ipr/io>
#include <sstream>
#include <cstdio>
int main() {
   using namespace ipr;
   impl::Lexicon lex;
   std::ostringstream os;
   Printer pp{lex, os};
   auto& x = *lex.make_literal(lex.int_type(), u8"1");
   pp << xpr_expr(*lex.make_enclosure(Delimiter::Nothing, x));
   auto s = os.str();
   int nul = 0; for (char c : s) nul += c == '\0';
   std::printf("%zu bytes written, %d of them NUL\n", s.size(), nul);
   return nul != 0;
}
