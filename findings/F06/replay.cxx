// F6 (C18): printing a literal containing \1..\3 leaves the stream in octal: later positions / locations
// are printed in base 8.
#include <ipr/impl>
#include <ipr/io>
#include <sstream>
#include <cstdio>
int main() {
   using namespace ipr;
   impl::Lexicon lex;
   impl::Translation_unit unit{lex};
   std::ostringstream os;
   Printer pp{lex, os};
   pp << xpr_expr(*lex.make_literal(lex.char_type(), u8"\1"));
   bool flags_touched = (os.flags() & std::ios_base::basefield) != std::ios_base::dec;
   pp << Decl_position{9};
   std::printf("output: %s ; stream still decimal: %s\n", os.str().c_str(), flags_touched ? "NO" : "yes");
   return flags_touched;
}
